"""vmcross.py - cross-check of the extraction path against Coq's own evaluator.

The oracle of a property is the model EXTRACTED to OCaml (ExtrOcamlBasic + ExtrOcamlZBigInt + a few Extract Constant
directives) and driven by a hand-written OCaml file.  For a sample of single-call cases this module writes a `cases.v`
that applies the very same Gallina functions to the same arguments, lets `coqc` evaluate it with `vm_compute` (the kernel's
byte-code machine: nothing extracted, no OCaml integers, no driver), renders Coq's printed values in the oracle's format
and requires identical lines.  A disagreement means the extraction, one of its directives, zarith, or the driver's
rendering is wrong - which would silently invalidate the correspondence."""
import os
import re
import subprocess
import tempfile


def render(text, fmt):
    """text: what Coq printed after `= ` (type annotation removed).  fmt: 'opt' (option of Z / pair / list -> numbers or
    PANIC) or 'optopt' (option (option Z) -> PANIC / NONE / number)."""
    t = " ".join(text.split())
    if t == "None":
        return "PANIC"
    if fmt == "optopt" and t == "Some None":
        return "NONE"
    if fmt == "optok":                                   # option (list Z) -> `OK a b c` / PANIC
        return " ".join(["OK"] + re.findall(r"-?\d+", t))
    return " ".join(re.findall(r"-?\d+", t))


def run(coq_dir, requires, items, timeout=600):
    """items: list of (key, coq_expression, fmt).  Returns {key: rendered} or (None, error)."""
    src = ["From Coq Require Import ZArith List.", requires, "Import ListNotations.", "Open Scope Z_scope."]
    for key, expr, fmt in items:
        src.append("Eval vm_compute in (%s)." % expr)
    cache = os.path.join(coq_dir, "..", ".cache")
    os.makedirs(cache, exist_ok=True)
    d = tempfile.mkdtemp(prefix="vmcross", dir=cache)
    try:
        path = os.path.join(d, "cases.v")
        open(path, "w").write("\n".join(src) + "\n")
        p = subprocess.run(["coqc", "-noglob", "-Q", coq_dir, "TF", path], stdout=subprocess.PIPE,
                           stderr=subprocess.PIPE, timeout=timeout)
        if p.returncode != 0:
            return None, p.stderr.decode("utf-8", "replace")[-800:]
        out = p.stdout.decode("utf-8", "replace")
    finally:
        subprocess.call(["rm", "-rf", d])
    # one block per Eval: starts with "     = ", ends before the next one; the type follows the last top-level " : "
    blocks = re.split(r"^\s*= ", out, flags=re.M)[1:]
    if len(blocks) != len(items):
        return None, "expected %d results, coqc printed %d" % (len(items), len(blocks))
    res = {}
    for (key, expr, fmt), b in zip(items, blocks):
        b = b.strip()
        i = b.rfind("\n     : ")
        if i < 0:
            i = b.rfind(" : ")
        res[key] = render(b[:i] if i >= 0 else b, fmt)
    return res, None
